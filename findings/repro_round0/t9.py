import logging; logging.disable(logging.CRITICAL)
from xstate_statemachine import create_machine, SyncInterpreter, MachineLogic
import threading, sys, inspect
from xstate_statemachine import sync_interpreter as S
src, start = inspect.getsourcelines(S.SyncInterpreter._process_event_queue)
# real source line of the flag release inside `finally`
release_line = start + next(i for i,l in enumerate(src) if "self._is_processing = False" in l)
seen=[]
m=create_machine({"id":"r","initial":"a","states":{"a":{"on":{"E1":{"actions":["rec"]},"E2":{"actions":["rec"]}}}}},
                 logic=MachineLogic(actions={"rec":lambda i,c,e,a: seen.append(e.type)}))
it=SyncInterpreter(m).start()
at_release=threading.Event(); resume=threading.Event()
def tracer(frame, event, arg):
    if frame.f_code is S.SyncInterpreter._process_event_queue.__code__:
        def local(frame, event, arg):
            if event=="line" and frame.f_lineno==release_line and not at_release.is_set():
                at_release.set(); resume.wait(5)
            return local
        return local
    return tracer
def thread_a():
    sys.settrace(tracer); it.send("E1"); sys.settrace(None)
a=threading.Thread(target=thread_a); a.start()
at_release.wait(5)
# Thread A has drained the queue and is about to release the flag. A timer thread / other producer sends now:
it.send("E2")
resume.set(); a.join()
print("24. forced schedule: processed=",seen," still queued=",[e.type for e in it._event_queue]," is_processing=",it._is_processing)
import time; time.sleep(0.2)
print("24. 200ms later, nothing else sent: processed=",seen," still queued=",[e.type for e in it._event_queue])
