import logging; logging.disable(logging.CRITICAL)
from xstate_statemachine import create_machine, SyncInterpreter, MachineLogic, Interpreter, State, build_machine
from xstate_statemachine.pythonic import _compile_config
import asyncio, json
# 19. pythonic: transitions merged by bare state name at any depth
inner_idle=State("idle",initial=True); inner_busy=State("busy")
grp=State("grp",states=[inner_idle,inner_busy])
idle=State("idle",initial=True); done=State("done")
t=idle.to(done,event="GO")   # declared on the TOP-LEVEL idle only
cfg=_compile_config("m",[idle,grp,done],[t])
print("19. top idle on:",cfg["states"]["idle"].get("on")," nested grp.idle on:",cfg["states"]["grp"]["states"]["idle"].get("on"))

# 20. invoked child MACHINE that fails, no onError: parent status?
def boom(i,c,e): raise RuntimeError("svc")
child=create_machine({"id":"c","initial":"x","states":{"x":{"invoke":{"src":"boom"}}}},logic=MachineLogic(services={"boom":boom}))
par_cfg={"id":"p","initial":"a","states":{"a":{"invoke":{"src":"kid","id":"k"}}}}
async def t20():
    it=await Interpreter(create_machine(par_cfg,logic=MachineLogic(services={"kid":child}))).start(); await asyncio.sleep(0.1)
    print("20. async parent status after child machine failed w/o onError:",it.status, it.error); await it.stop()
asyncio.run(t20())
def boom2(i,c,e): raise RuntimeError("svc")
it=SyncInterpreter(create_machine({"id":"p","initial":"a","states":{"a":{"invoke":{"src":"boom2"}}}},logic=MachineLogic(services={"boom2":boom2}))).start()
print("20. (control) callable service failed w/o onError: status",it.status)
