import logging, io
buf=io.StringIO(); logging.basicConfig(stream=buf, level=logging.ERROR)
from xstate_statemachine import create_machine, SyncInterpreter, MachineLogic
import threading, sys, time
from xstate_statemachine import sync_interpreter as S
FILE=S.__file__
paused=threading.Event(); resume=threading.Event(); hits=[0]
def tracer(frame, event, arg):
    if frame.f_code.co_filename==FILE and frame.f_code.co_name=="<genexpr>" and threading.current_thread().name.startswith("after-"):
        def local(frame, event, arg):
            if event=="line":
                hits[0]+=1
                if hits[0]==2 and not paused.is_set():     # after the first element was examined
                    paused.set(); resume.wait(5)
            return local
        return local
    return tracer
threading.settrace(tracer)
cfg={"id":"p","type":"parallel","states":{
  "r1":{"initial":"T","states":{"T":{"after":{"50":"T2"}},"T2":{}}},
  "r2":{"initial":"u","states":{"u":{"on":{"GO":"v"}},"v":{"initial":"w","states":{"w":{}}}}},
  "r3":{"initial":"k","states":{"k":{}}},"r4":{"initial":"k","states":{"k":{}}}}}
it=SyncInterpreter(create_machine(cfg,logic=MachineLogic())).start()
ok=paused.wait(3)
if ok:
    it.send("GO")            # unrelated region changes the SIZE of the shared set while the timer thread is mid-iteration
    resume.set()
time.sleep(0.4)
print("26. paused timer thread mid-iteration:",ok,"| T still active and its 50ms timer is long overdue -> states:",sorted(s for s in it.current_state_ids if 'r1' in s))
print("    log:", [l for l in buf.getvalue().splitlines() if 'after-timer' in l or 'RuntimeError' in l][:2])
