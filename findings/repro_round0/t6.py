import logging; logging.disable(logging.CRITICAL)
from xstate_statemachine import create_machine, SyncInterpreter, MachineLogic, initial_transition, pure_transition
# 11d non-string target -> TypeError from inside send()
m=create_machine({"id":"t","initial":"a","states":{"a":{"on":{"GO":{"target":5}}},"b":{}}},logic=MachineLogic())
it=SyncInterpreter(m).start()
try: it.send("GO")
except Exception as e: print("11d. non-string target: create_machine accepted; send() ->",type(e).__name__)
# 12b pure API forgets history
cfg={"id":"w","initial":"wiz","states":{"wiz":{"initial":"s1","on":{"OUT":"away"},"states":{"s1":{"on":{"N":"s2"}},"s2":{},"h":{"type":"history"}}},"away":{"on":{"BACK":"wiz.h"}}}}
m=create_machine(cfg,logic=MachineLogic())
it=SyncInterpreter(m).start()
for e in ("N","OUT","BACK"): it.send(e)
s,_=initial_transition(m)
for e in ("N","OUT","BACK"): s,_=pure_transition(m,s,e)
print("12b. sync:",sorted(it.current_state_ids)," pure:",sorted(s.state_ids))
