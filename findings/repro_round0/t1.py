import logging; logging.disable(logging.CRITICAL)
from xstate_statemachine import create_machine, SyncInterpreter, MachineLogic, Interpreter
import asyncio, json

# 1. sync send_events beyond maxIterations loses EXTERNAL events
seen=[]
m=create_machine({"id":"m","initial":"a","maxIterations":10,"states":{"a":{"on":{"E":{"actions":["rec"]}}}}},
    logic=MachineLogic(actions={"rec":lambda i,c,e,a: seen.append(e.payload.get("n"))}))
it=SyncInterpreter(m).start()
it.send_events([{"type":"E","n":k} for k in range(25)])
print("1. sync send_events(25) with maxIterations=10 processed:",len(seen))

# 2. history child of a parallel parent, unvisited
cfg={"id":"h","initial":"out","states":{
  "out":{"on":{"GO":"p.hist"}},
  "p":{"type":"parallel","states":{"hist":{"type":"history","history":"deep"},
      "r1":{"initial":"x","states":{"x":{},"y":{}}},
      "r2":{"initial":"u","states":{"u":{},"v":{}}}}}}}
it=SyncInterpreter(create_machine(cfg,logic=MachineLogic())).start()
it.send("GO"); print("2. config after GO into p.hist (unvisited):",sorted(n.id for n in it._active_state_nodes))

# 4. from_snapshot missing keys
try:
    SyncInterpreter.from_snapshot(json.dumps({"foo":1}), m)
except Exception as e: print("4. from_snapshot({'foo':1}) ->",type(e).__name__, e)

# 5. non-dict config
for bad in ([1,2], "x"):
    try: create_machine(bad, logic=MachineLogic())
    except Exception as e: print("5. create_machine(%r, logic=...) ->"%(bad,),type(e).__name__)
try: create_machine({"id":"q","states":["a"]}, logic=MachineLogic())
except Exception as e: print("5b. states as list ->",type(e).__name__, e)
try: create_machine({"id":"q","maxIterations":"many","states":{"a":{}}}, logic=MachineLogic())
except Exception as e: print("5c. maxIterations str ->",type(e).__name__, e)

# 6. initial naming a history child
cfg={"id":"i","initial":"c","states":{"c":{"initial":"h","states":{"h":{"type":"history"},"a":{}}}}}
it=SyncInterpreter(create_machine(cfg,logic=MachineLogic())).start()
print("6. initial->history child: config",sorted(n.id for n in it._active_state_nodes))
