import logging; logging.disable(logging.CRITICAL)
from xstate_statemachine import create_machine, SyncInterpreter, MachineLogic, Interpreter
import asyncio, time

# 21. stale after-expiry from a previous activation fires right after re-entry (async)
async def slow(i,c,e,a): await asyncio.sleep(0.40)
t0=None; log=[]
def stamp(name): 
    return lambda i,c,e,a: log.append((name, round(time.monotonic()-t0,2)))
cfg={"id":"t","initial":"A","states":{
  "A":{"entry":["inA"],"after":{"300":"B"},"on":{"SLOW":{"actions":["slow"]},"LEAVE":"X"}},
  "X":{"on":{"RETURN":"A"}},
  "B":{"entry":["inB"]}}}
async def t21():
    global t0
    m=create_machine(cfg,logic=MachineLogic(actions={"slow":slow,"inA":stamp("enter A"),"inB":stamp("enter B")}))
    t0=time.monotonic()
    it=await Interpreter(m).start()
    await it.send("SLOW"); await it.send("LEAVE"); await it.send("RETURN")
    await asyncio.sleep(0.55)
    print("21. async timeline:",log, "(after=300ms; B is due 300ms after the 2nd 'enter A')")
    await it.stop()
asyncio.run(t21())

# 22. stale done.invoke from a previous activation drives onDone of the new activation (async)
calls=[]
async def svc(i,c,e):
    n=len(calls); calls.append(n); await asyncio.sleep(0.10 if n==0 else 5.0); return f"result-of-activation-{n}"
got=[]
cfg={"id":"s","initial":"A","states":{
  "A":{"invoke":{"src":"svc","onDone":{"target":"D","actions":["rec"]}},"on":{"SLOW":{"actions":["slow"]},"LEAVE":"X"}},
  "X":{"on":{"RETURN":"A"}},"D":{}}}
async def t22():
    m=create_machine(cfg,logic=MachineLogic(actions={"slow":slow,"rec":lambda i,c,e,a: got.append(e.data)},services={"svc":svc}))
    it=await Interpreter(m).start()
    await asyncio.sleep(0.01)
    await it.send("SLOW"); await it.send("LEAVE"); await it.send("RETURN")
    await asyncio.sleep(0.6)
    print("22. async: activations started:",calls," onDone saw:",got," state:",sorted(it.current_state_ids))
    await it.stop()
asyncio.run(t22())
