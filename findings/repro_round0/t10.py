import logging; logging.disable(logging.CRITICAL)
from xstate_statemachine import create_machine, SyncInterpreter, MachineLogic
import threading, sys, inspect, time
from xstate_statemachine import sync_interpreter as S
src, start = inspect.getsourcelines(S.SyncInterpreter._process_event_queue)
acquire_line = start + next(i for i,l in enumerate(src) if "self._is_processing = True" in l)
inside=[0]; overlap=[]
gate=threading.Event()
def rec(i,c,e,a):
    inside[0]+=1
    if inside[0]>1: overlap.append(e.type)
    if e.type=="E2": gate.wait(5)      # main thread parks INSIDE its macrostep
    inside[0]-=1
m=create_machine({"id":"r","initial":"a","states":{"a":{"on":{"E1":{"actions":["rec"]},"E2":{"actions":["rec"]},"E3":{"actions":["rec"]}}}}},logic=MachineLogic(actions={"rec":rec}))
it=SyncInterpreter(m).start()
at_acquire=threading.Event(); resume=threading.Event()
def tracer(frame, event, arg):
    if frame.f_code is S.SyncInterpreter._process_event_queue.__code__:
        def local(frame, event, arg):
            if event=="line" and frame.f_lineno==acquire_line and not at_acquire.is_set():
                at_acquire.set(); resume.wait(5)
            return local
        return local
    return tracer
def thread_a():
    sys.settrace(tracer); it.send("E1"); sys.settrace(None)
def main_sender(): it.send("E2")
a=threading.Thread(target=thread_a); a.start(); at_acquire.wait(5)   # A passed the check, has not set the flag
b=threading.Thread(target=main_sender); b.start(); time.sleep(0.1)   # B passes the same check, drains: E1 then E2 (parks in E2)
it.send("E3")                                                       # a timer thread sends meanwhile: flag is held, so it is only appended
resume.set(); time.sleep(0.1)                                        # A now sets the flag and drains E3 while B is still inside E2
print("25. forced schedule: events processed while another macrostep was in flight:",overlap, " inside now:",inside[0])
gate.set(); a.join(); b.join()
