import logging; logging.disable(logging.CRITICAL)
from xstate_statemachine import create_machine, SyncInterpreter, MachineLogic
import threading, sys, time
sys.setswitchinterval(1e-6)
inside=[0]; overlap=[0]; count=[0]
def act(i,c,e,a):
    inside[0]+=1
    if inside[0]>1: overlap[0]+=1
    x=0
    for _ in range(50): x+=1
    count[0]+=1
    inside[0]-=1
m=create_machine({"id":"r","initial":"a","maxIterations":100000000,"states":{"a":{"on":{"E":{"actions":["act"]}}}}},logic=MachineLogic(actions={"act":act}))
it=SyncInterpreter(m).start()
N=20000
def producer():
    for _ in range(N): it.send("E")
ts=[threading.Thread(target=producer) for _ in range(4)]
t0=time.time()
for t in ts: t.start()
for t in ts: t.join()
print("23. 4 threads x %d sends: processed=%d (expected %d) concurrent-overlaps=%d leftover-in-queue=%d  %.1fs"%(N,count[0],4*N,overlap[0],len(it._event_queue),time.time()-t0))
